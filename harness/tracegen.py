"""Seeded generator of Kineto/Chrome-format trace file sets for the correspondence checks.

One random.Random instance drives every choice, so a case is reproducible from
(seed, case_no, profile name).  A case is a dict:

  {"ranks": {rank: {"events": [raw entries], "fmt": "json"|"gz", "indent": bool}},
   "profile": name, "seed": int, "case_no": int}

The generator produces *well-formed* traces in the sense of DESIGN.md section 3 unless a
malformed knob is set: host threads are properly nested forests, correlation ids pair at most
one host call with one device activity, device stream ids are positive, entry 0 is a host
operator without correlation.
"""
from __future__ import annotations

import gzip
import json
import os
import random
from dataclasses import dataclass, field, replace
from typing import Any, Dict, List, Optional, Tuple

LAUNCH_KERNEL_NAMES = ["cudaLaunchKernel", "cudaLaunchKernelExC", "cuLaunchKernel", "hipLaunchKernel",
                       "runFunction - job_prep_and_submit_for_execution", "hipExtModuleLaunchKernel"]
LAUNCH_MEM_NAMES = ["cudaMemcpyAsync", "cudaMemsetAsync", "hipMemcpyAsync", "hipMemsetAsync", "hipMemcpyWithStream"]
COMPUTE_KERNELS = ["void at::native::vectorized_elementwise_kernel<4, at::native::AddFunctor<float> >(int)",
                   "ampere_sgemm_128x64_nn", "volta_fp16_gemm", "ncclFoo", "xMemcpy", "elementwise",
                   "void cutlass::Kernel<cutlass_80>(Params)", "sm80_xmma_gemm"]
COMM_KERNELS = ["ncclKernel_AllReduce_RING_LL_Sum_float(ncclWorkElem)", "ncclDevKernel_AllGather_RING",
                "nccl:all_reduceKernel"]
MEM_KERNELS = ["Memcpy DtoH (Device -> Pinned)", "Memcpy HtoD (Pageable -> Device)", "Memcpy DtoD (Device -> Device)",
               "Memset (Device)", "dma_copy", "MemsetX", "Memcpy"]
OTHER_KERNELS = ["fooMemcpy", "barSync", "Stream Sync", "aMemset"]
CPU_OPS = ["aten::add", "aten::mm", "aten::linear", "aten::conv2d", "aten::relu", "aten::copy_", "aten::to",
           "aten::empty", "autograd::engine::evaluate_function: AddBackward0", "AddBackward0", "aten::mul",
           "Optimizer.step#SGD.step", "aten::add_"]
ANNOTATIONS = ["## forward ##", "## backward ##", "my_region", "train_step"]


@dataclass
class Profile:
    name: str = "default"
    tmax_choices: Tuple[int, ...] = (6, 12, 24, 40, 110, 200, 5000, 40000)
    epoch_choices: Tuple[int, ...] = (0, 0, 1000000, 1700000000000000)
    n_ranks: Tuple[int, int] = (1, 1)
    n_steps: Tuple[int, int] = (0, 0)           # ProfilerStep annotations on the main thread
    n_threads: Tuple[int, int] = (1, 2)
    max_depth: int = 4
    max_children: int = 4
    p_zero_dur: float = 0.08                    # allow zero-duration host events
    p_identical: float = 0.1                    # child identical to parent span
    p_launch: float = 0.35                      # leaf becomes a launch call
    p_mem_launch: float = 0.25                  # launch is memcpy/memset
    p_missing_kernel: float = 0.08
    p_orphan_kernel: float = 0.08
    device: str = "fifo"                        # fifo | free | none
    n_streams: Tuple[int, int] = (1, 3)
    n_free_kernels: Tuple[int, int] = (0, 0)    # additional kernels placed anywhere (free profile)
    p_kernel_zero: float = 0.08
    p_same_ts_as_launch: float = 0.15           # kernel starts at launch ts (tie)
    kernel_causal: bool = True
    p_sync: float = 0.0                         # synchronisation calls with cuda_sync events
    p_nonevents: float = 0.5                    # file contains metadata/flow/instant/Trace entries
    p_string_pid_span: float = 0.3
    shuffle: bool = True
    fractional: bool = False                    # fractional timestamps (C01)
    p_gz: float = 0.3
    p_bwd_thread: float = 0.0
    p_gpu_annotation: float = 0.0
    kernel_names: Optional[Tuple[str, ...]] = None
    kernel_dur_max: Optional[int] = None
    allow_host_stream_arg: bool = False
    with_bw: bool = True
    min_host_events: int = 1
    causal_sync: bool = False                   # shrink kernels so that every synchronising call returns after the work it waits for
    p_sync_touch: float = 0.0                   # a sync record ends exactly when a kernel of its stream starts
    p_fifo_overlap: float = 0.0                 # a kernel starts 1-2 units before the previous kernel of its stream ends (tolerated -1 edges)
    stream_zero: bool = False                   # the device stream id 0 may occur (HTA: every stream other than -1 is a device stream)
    unique_pad_names: bool = False              # the padding operators carry names of their own, different per rank (a vocabulary beyond 127 symbols)
    shared_names: bool = False                  # a host operator and a device kernel may carry the same name (torch.compile: op and Triton kernel)
    more_inner_annotations: bool = False        # user annotations with operator children inside operators (events without graph nodes inside the nest)
    n_pad: Tuple[int, int] = (0, 0)              # extra small host ops on their own thread (pushes row ids past 127 / 32767)


class Gen:
    def __init__(self, rng: random.Random, prof: Profile):
        self.rng = rng
        self.p = prof
        self.next_corr = rng.choice([0, 1, 100, 5000])
        self.next_ext = 1

    # ---- host forest -------------------------------------------------------------------
    def forest(self, lo: int, hi: int, depth: int, budget: List[int], allow_zero: bool) -> List[dict]:
        """Disjoint-or-touching siblings inside [lo, hi]; each with nested children."""
        rng, p = self.rng, self.p
        if budget[0] <= 0 or hi < lo:
            return []
        k = rng.randint(0 if depth > 0 else 1, p.max_children)
        if hi == lo and not allow_zero:
            return []
        pts = sorted(rng.randint(lo, hi) for _ in range(2 * k))
        out = []
        for i in range(k):
            a, b = pts[2 * i], pts[2 * i + 1]
            if depth > 0 and i == 0 and rng.random() < p.p_identical:
                a, b = lo, hi
                pts = [hi] * len(pts)  # remaining siblings collapse at hi
            if a == b and not (allow_zero and rng.random() < max(p.p_zero_dur, 0.0) * 4):
                if b < hi:
                    b = b + 1
                    # keep siblings disjoint-or-touching
                    for j in range(2 * i + 2, len(pts)):
                        if pts[j] < b:
                            pts[j] = b
                elif a > lo and (i == 0 or pts[2 * i - 1] <= a - 1):
                    a = a - 1
                else:
                    continue
            if budget[0] <= 0:
                break
            budget[0] -= 1
            node = {"ts": a, "dur": b - a, "children": []}
            if b > a and depth < p.max_depth and rng.random() < 0.7:
                node["children"] = self.forest(a, b, depth + 1, budget, allow_zero)
            out.append(node)
        return out

    def flatten_thread(self, forest: List[dict], pid: int, tid: int, out: List[dict], depth=0):
        rng, p = self.rng, self.p
        for n in forest:
            leaf = not n["children"]
            ev: Dict[str, Any] = {"ph": "X", "pid": pid, "tid": tid, "ts": n["ts"], "dur": n["dur"]}
            if leaf and n["dur"] > 0 and rng.random() < p.p_sync * 0.3:
                ev["cat"] = "cuda_runtime"
                ev["name"] = rng.choice(["cudaDeviceSynchronize", "cudaStreamSynchronize"])
                ev["args"] = {"correlation": self.next_corr, "External id": self.next_ext}
                ev["_sync"] = True
                self.next_corr += 1
            elif leaf and rng.random() < p.p_launch and p.device != "none":
                mem = rng.random() < p.p_mem_launch
                ev["cat"] = "cuda_runtime" if rng.random() < 0.85 else "cuda_driver"
                ev["name"] = rng.choice(LAUNCH_MEM_NAMES if mem else LAUNCH_KERNEL_NAMES)
                ev["args"] = {"correlation": self.next_corr, "External id": self.next_ext}
                ev["_launch"] = True
                self.next_corr += rng.choice([1, 1, 2, 7])
            else:
                r = rng.random()
                if p.more_inner_annotations and not leaf and depth > 0 and 0.45 <= r < 0.7:
                    r = 0.75
                if r < 0.7:
                    ev["cat"] = "cpu_op"
                    ev["name"] = rng.choice(CPU_OPS)
                    if p.shared_names and rng.random() < 0.12:
                        ev["name"] = rng.choice(["triton_poi_fused_add_0", "ncclKernel_AllReduce_RING_LL_Sum_float(ncclWorkElem)"])
                    ev["args"] = {"External id": self.next_ext}
                    if rng.random() < 0.3:
                        ev["args"]["Input Dims"] = [[2, 3], []]
                    if p.allow_host_stream_arg and rng.random() < 0.15:
                        ev["args"]["stream"] = rng.choice(["cpu", "N/A", ""])
                elif r < 0.8:
                    ev["cat"] = "user_annotation"
                    ev["name"] = rng.choice(ANNOTATIONS)
                elif r < 0.9:
                    ev["cat"] = "cuda_runtime"
                    ev["name"] = rng.choice(["cudaGetDevice", "cudaFuncGetAttributes", "cudaPeekAtLastError"])
                    ev["args"] = {"External id": self.next_ext}
                    if rng.random() < 0.5:
                        # runtime call with a correlation id but no device partner
                        ev["args"]["correlation"] = self.next_corr
                        self.next_corr += 1
                else:
                    ev["cat"] = "python_function"
                    ev["name"] = rng.choice(["torch/nn/modules/module.py(1501): _call_impl", "<built-in method add>"])
            self.next_ext += 1
            out.append(ev)
            self.flatten_thread(n["children"], pid, tid, out, depth + 1)

    # ---- one rank ----------------------------------------------------------------------
    def gen_rank(self, rank: int, T: int, epoch: int) -> List[dict]:
        # every rank numbers its correlation ids from (nearly) the same start, as real ranks do: ids overlap across ranks
        if rank > 0:
            self.next_corr = self.corr_base + 2 * rank
        else:
            self.corr_base = self.next_corr
        rng, p = self.rng, self.p
        host_pid = rng.choice([100, 4242, 7 + rank])
        n_threads = rng.randint(*p.n_threads)
        tids = rng.sample([1, 2, 3, 55, 9000], n_threads)
        host: List[dict] = []
        n_steps = rng.randint(*p.n_steps)
        step_base = rng.choice([0, 3, 15, 550, 8, 98])       # 8 and 98: the step numbers change their digit count within the trace
        for ti, tid in enumerate(tids):
            budget = [rng.randint(3, 25)]
            allow_zero = p.p_zero_dur > 0
            if ti == 0 and n_steps > 0:
                # ProfilerStep annotations: disjoint top-level spans with gaps; events before / after
                pts = sorted(rng.sample(range(0, T + 1), min(2 * n_steps, T + 1)))
                n_steps_eff = len(pts) // 2
                forest = []
                prev_end = 0
                for s in range(n_steps_eff):
                    a, b = pts[2 * s], pts[2 * s + 1]
                    if a > prev_end and rng.random() < 0.5:
                        forest += self.forest(prev_end, a, 1, [rng.randint(1, 4)], allow_zero)
                    node = {"ts": a, "dur": b - a, "children": self.forest(a, b, 1, [rng.randint(1, 10)], allow_zero),
                            "_step": step_base + s}
                    forest.append(node)
                    prev_end = b
                if prev_end < T and rng.random() < 0.6:
                    forest += self.forest(prev_end, T, 1, [rng.randint(1, 4)], allow_zero)
                evs: List[dict] = []
                for n in forest:
                    if "_step" in n:
                        evs.append({"ph": "X", "cat": "user_annotation", "name": f"ProfilerStep#{n['_step']}",
                                    "pid": host_pid, "tid": tid, "ts": n["ts"], "dur": n["dur"]})
                        self.flatten_thread(n["children"], host_pid, tid, evs)
                    else:
                        self.flatten_thread([n], host_pid, tid, evs)
                host += evs
            else:
                forest = self.forest(0, T, 0, budget, allow_zero)
                evs = []
                self.flatten_thread(forest, host_pid, tid, evs)
                if ti == 1 and rng.random() < p.p_bwd_thread:
                    for e in evs:
                        if e["cat"] == "cpu_op":
                            e["name"] = "autograd::engine::evaluate_function: " + rng.choice(["AddBackward0", "MmBackward0"])
                            break
                host += evs
        # synchronisation calls
        dev: List[dict] = []
        gpu_pid = rng.choice([0, 1])
        n_streams = rng.randint(*p.n_streams)
        streams = rng.sample([7, 13, 20, 24, 3] + ([0, 0] if p.stream_zero else []), n_streams)
        streams = list(dict.fromkeys(streams)) or [7]
        free_at = {s: 0 for s in streams}
        knames = list(p.kernel_names) if p.kernel_names else None
        launches = sorted([e for e in host if e.get("_launch")], key=lambda e: (e["ts"], e["dur"]))

        def kname(mem: bool) -> Tuple[str, str]:
            if knames:
                nm = rng.choice(knames)
            elif mem:
                nm = rng.choice(MEM_KERNELS)
            else:
                r = rng.random()
                nm = rng.choice(COMPUTE_KERNELS if r < 0.6 else COMM_KERNELS if r < 0.85 else OTHER_KERNELS)
            if p.shared_names and not mem and not knames and rng.random() < 0.12:
                nm = "triton_poi_fused_add_0"
            if nm.startswith("Memcpy"):
                cat = "gpu_memcpy"
            elif nm.startswith("Memset"):
                cat = "gpu_memset"
            else:
                cat = rng.choice(["kernel", "kernel", "kernel", "Kernel"]) if rng.random() < 0.97 else "gpu_user_annotation"
            return nm, cat

        def mk_kernel(ts: int, dur: int, s: int, corr: Optional[int], mem: bool) -> dict:
            nm, cat = kname(mem)
            args: Dict[str, Any] = {"stream": s, "device": gpu_pid}
            if corr is not None:
                args["correlation"] = corr
            if p.with_bw and (cat in ("gpu_memcpy", "gpu_memset")):
                args["memory bandwidth (GB/s)"] = rng.choice([0.5, 1.0, 2.25, 8.0, 16.5, 100.0, 0.25, 3.75])
                args["bytes"] = rng.choice([4, 1024, 65536])
            return {"ph": "X", "cat": cat, "name": nm, "pid": gpu_pid, "tid": s, "ts": ts, "dur": dur, "args": args}

        kmax = p.kernel_dur_max or max(1, T // 3)
        if p.device in ("fifo", "free"):
            for l in launches:
                if rng.random() < p.p_missing_kernel:
                    continue
                s = rng.choice(streams)
                mem = l["name"] in LAUNCH_MEM_NAMES
                dur = 0 if rng.random() < p.p_kernel_zero else rng.randint(1, kmax)
                if p.device == "fifo":
                    base = l["ts"] if p.kernel_causal else max(0, l["ts"] - rng.randint(0, 3))
                    if rng.random() >= p.p_same_ts_as_launch:
                        base += rng.randint(0, max(1, T // 4))
                    ts = max(base, free_at[s] + (0 if rng.random() < 0.3 else rng.randint(0, 3)))
                    if p.p_fifo_overlap > 0 and rng.random() < p.p_fifo_overlap and free_at[s] - 2 >= base and free_at[s] >= 2:
                        ts = free_at[s] - rng.choice([1, 1, 2])
                    free_at[s] = ts + dur
                else:
                    ts = rng.randint(l["ts"] if p.kernel_causal else 0, T)
                dev.append(mk_kernel(ts, dur, s, l["args"]["correlation"], mem))
            # orphan kernels (host partner missing)
            n_orph = sum(1 for _ in range(3) if rng.random() < p.p_orphan_kernel)
            for _ in range(n_orph):
                s = rng.choice(streams)
                dur = rng.randint(0, kmax)
                ts = free_at[s] + rng.randint(0, 3) if p.device == "fifo" else rng.randint(0, T)
                free_at[s] = ts + dur
                corr = self.next_corr if rng.random() < 0.7 else None
                self.next_corr += 1
                dev.append(mk_kernel(ts, dur, s, corr, rng.random() < 0.3))
            for _ in range(rng.randint(*p.n_free_kernels)):
                s = rng.choice(streams)
                ts = rng.randint(0, T)
                dur = 0 if rng.random() < p.p_kernel_zero else rng.randint(1, kmax)
                corr = self.next_corr
                self.next_corr += 1
                dev.append(mk_kernel(ts, dur, s, corr, rng.random() < 0.25))
        for e in host:
            if e.get("_sync"):
                a = rng.randint(e["ts"], e["ts"] + e["dur"])
                b = rng.randint(a, e["ts"] + e["dur"])
                if e["name"] == "cudaDeviceSynchronize":
                    dev.append({"ph": "X", "cat": "cuda_sync", "name": "Context Sync", "pid": gpu_pid, "tid": 0, "ts": a, "dur": b - a,
                                "args": {"cuda_sync_kind": "Context Sync", "stream": -1, "correlation": e["args"]["correlation"], "External id": e["args"]["External id"]}})
                else:
                    s_ = rng.choice(streams)
                    if p.p_sync_touch > 0 and rng.random() < p.p_sync_touch:
                        starts = sorted({k["ts"] for k in dev if k.get("cat") != "cuda_sync" and k["args"].get("stream") == s_
                                         and e["ts"] <= k["ts"] <= e["ts"] + e["dur"]})
                        if starts:
                            b = rng.choice(starts)
                            a = rng.randint(e["ts"], b)
                            if rng.random() < 0.7:
                                # a long record, and the kernel that starts when it ends is shorter than the record but outlives the call
                                a = e["ts"]
                                lo, hi = e["ts"] + e["dur"] - b + 1, b - a - 1
                                for k in dev:
                                    if k.get("cat") != "cuda_sync" and k["args"].get("stream") == s_ and k["ts"] == b and lo <= hi and k["dur"] > hi:
                                        k["dur"] = rng.randint(lo, hi)
                    dev.append({"ph": "X", "cat": "cuda_sync", "name": "Stream Sync", "pid": gpu_pid, "tid": s_, "ts": a, "dur": b - a,
                                "args": {"cuda_sync_kind": "Stream Sync", "stream": s_, "correlation": e["args"]["correlation"], "External id": e["args"]["External id"]}})
        if rng.random() < p.p_gpu_annotation and dev:
            for _ in range(rng.randint(1, 6)):
                s = rng.choice(streams)
                a = rng.randint(0, T)
                dev.append({"ph": "X", "cat": "gpu_user_annotation", "name": rng.choice(ANNOTATIONS + ["step", "fwd", "bwd"]), "pid": gpu_pid,
                            "tid": s, "ts": a, "dur": rng.randint(1, max(1, T - a + 1)),
                            "args": {"stream": s}})
        if p.causal_sync:
            calls = {e["args"]["correlation"]: e for e in host if e.get("_sync")}
            for rec in [x for x in dev if x.get("cat") == "cuda_sync"]:
                call = calls.get(rec["args"]["correlation"])
                if call is None:
                    continue
                b, c1 = rec["ts"] + rec["dur"], call["ts"] + call["dur"]
                for k in dev:
                    if k.get("cat") == "cuda_sync" or "correlation" not in k.get("args", {}):
                        continue        # sync records, and annotation spans on the device that no call launched
                    if rec["name"] == "Stream Sync" and k["args"].get("stream") != rec["args"].get("stream"):
                        continue
                    # work that starts before the record ends is waited for; work starting in the very instant the record ends is not
                    if (k["ts"] < b or (k["ts"] == b and not p.p_sync_touch)) and k["ts"] + k["dur"] > c1:
                        k["dur"] = max(0, c1 - k["ts"])
        for e in host:
            e.pop("_launch", None)
            e.pop("_sync", None)
        npad = rng.randint(*p.n_pad)
        for k in range(npad):
            host.append({"ph": "X", "cat": "cpu_op", "name": (f"aten::pad_r{rank}_{k}" if p.unique_pad_names else rng.choice(CPU_OPS)), "pid": host_pid, "tid": 424242,
                         "ts": (k * 2) % max(1, T), "dur": 0 if T < 2 * npad else 1, "args": {"External id": self.next_ext + k}})
        events = host + dev
        # first entry: host operator without correlation
        first = {"ph": "X", "cat": "cpu_op", "name": "aten::zeros", "pid": host_pid, "tid": 77777,
                 "ts": rng.randint(0, T), "dur": rng.randint(0, 2), "args": {"External id": 0}}
        rest = events
        if p.shuffle:
            rng.shuffle(rest)
        if rng.random() < p.p_nonevents:
            non = [
                {"ph": "M", "name": "process_name", "pid": host_pid, "tid": 0, "ts": 0, "args": {"name": "python"}},
                {"ph": "M", "name": "thread_name", "pid": gpu_pid, "tid": streams[0], "ts": 0, "args": {"name": "stream 7"}},
                {"ph": "s", "id": 5, "pid": host_pid, "tid": tids[0], "ts": rng.randint(0, T), "cat": "ac2g", "name": "ac2g"},
                {"ph": "f", "id": 5, "pid": gpu_pid, "tid": streams[0], "ts": rng.randint(0, T), "cat": "ac2g", "name": "ac2g", "bp": "e"},
                {"ph": "i", "s": "t", "name": "[memory]", "pid": host_pid, "tid": 0, "ts": rng.randint(0, T),
                 "args": {"Total Allocated": 512}},
                {"ph": "i", "s": "g", "name": "Iteration Start: PyTorch Profiler", "pid": "Traces", "tid": "Trace PyTorch Profiler", "ts": 0},
            ]
            if rng.random() < p.p_string_pid_span:
                non.append({"ph": "X", "cat": "Trace", "ts": 0, "dur": T, "pid": "Spans", "tid": "PyTorch Profiler",
                            "name": "PyTorch Profiler (0)", "args": {"Op count": 0}})
            for n in non:
                if rng.random() < 0.6:
                    rest.insert(rng.randint(0, len(rest)), n)
        out = [first] + rest
        for e in out:
            if "ts" in e:
                e["ts"] = e["ts"] + epoch
        return out


def gen_case(seed: int, case_no: int, prof: Profile) -> dict:
    rng = random.Random(seed * 1_000_003 + case_no)
    g = Gen(rng, prof)
    T = rng.choice(prof.tmax_choices)
    epoch = rng.choice(prof.epoch_choices)
    ranks: Dict[int, dict] = {}
    n_ranks = rng.randint(*prof.n_ranks)
    rank_ids = list(range(n_ranks))
    for r in rank_ids:
        evs = g.gen_rank(r, T, epoch)
        ranks[r] = {"events": evs, "fmt": "gz" if rng.random() < prof.p_gz else "json",
                    "indent": rng.random() < 0.3}
    return {"ranks": ranks, "profile": prof.name, "seed": seed, "case_no": case_no, "T": T, "epoch": epoch}


def gen_sync_scenario(seed: int, case_no: int) -> dict:
    """Template family for the synchronisation edges of the critical-path graph (randomised instants, exact touches):
    thread 1: an operator launches k1; a blocking cudaStreamSynchronize / cudaDeviceSynchronize (optionally nested in an operator) waits
    for it; the record of the wait ends when k1 ends; a long operator tail follows.  thread 2: an operator launches k2 on the same (or
    another) stream before the wait is over; k2 starts exactly when k1 ends (or a little later), is often shorter than the wait record
    and may outlive the call.  All instants are causally consistent: work starts after its launch, the call returns after k1."""
    rng = random.Random(seed * 2_000_003 + case_no)
    host_pid, gpu_pid = 1, 0
    s1 = rng.choice([7, 13, 20])
    s2 = s1 if rng.random() < 0.7 else rng.choice([x for x in (7, 13, 20) if x != s1])
    ext = [1]
    corr = [100]

    def X(cat, name, pid, tid, ts, dur, **args):
        if cat in ("cpu_op", "cuda_runtime"):
            args.setdefault("External id", ext[0])
            ext[0] += 1
        return {"ph": "X", "cat": cat, "name": name, "pid": pid, "tid": tid, "ts": ts, "dur": dur, "args": args}

    t = rng.randint(0, 5)
    evs = []
    evs.append(X("cpu_op", "aten::zeros", host_pid, 1, t, rng.randint(1, 3)))
    t = evs[-1]["ts"] + evs[-1]["dur"] + rng.randint(0, 2)
    # operator 1 with launch 1
    d1 = rng.randint(4, 12)
    l1 = t + rng.randint(1, 2)
    c1 = corr[0]; corr[0] += 1
    evs.append(X("cpu_op", rng.choice(CPU_OPS), host_pid, 1, t, d1))
    evs.append(X("cuda_runtime", "cudaLaunchKernel", host_pid, 1, l1, rng.randint(1, max(1, t + d1 - l1 - 1)), correlation=c1))
    k1s = l1 + rng.randint(0, 8)
    k1d = rng.randint(6, 40)
    k1e = k1s + k1d
    evs.append(X("kernel", rng.choice(COMPUTE_KERNELS + COMM_KERNELS), gpu_pid, s1, k1s, k1d, stream=s1, device=gpu_pid, correlation=c1))
    # tie variant: a second launch inside operator 1 puts a kernel on another stream that ends in the same instant as k1; a device
    # synchronisation then waits for both, and the two chains through k1 and through its twin weigh the same (two maximum-weight paths)
    l1_end = evs[-2]["ts"] + evs[-2]["dur"]
    tie_twin = rng.random() < 0.4 and l1_end + 2 <= t + d1
    if tie_twin:
        ct = corr[0]; corr[0] += 1
        st = rng.choice([x for x in (7, 13, 20) if x != s1])
        evs.append(X("cuda_runtime", "cudaLaunchKernel", host_pid, 1, l1_end, 1, correlation=ct))
        kts = rng.randint(l1_end, max(l1_end, k1e - 1))
        evs.append(X("kernel", rng.choice(COMPUTE_KERNELS), gpu_pid, st, kts, k1e - kts, stream=st, device=gpu_pid, correlation=ct))
    # the blocking call: starts after operator 1 and before k1 ends; returns when or after k1 ends
    sa = rng.randint(t + d1, max(t + d1, k1e - 2))
    sb = max(k1e + rng.randint(0, 3), sa + 1)        # the call lasts, and returns no earlier than k1 ends
    dev_sync = rng.random() < 0.3 or tie_twin
    cs = corr[0]; corr[0] += 1
    nested = rng.random() < 0.5
    if nested:
        evs.append(X("cpu_op", "aten::item", host_pid, 1, sa - 0, sb - sa + rng.randint(0, 4)))
    evs.append(X("cuda_runtime", "cudaDeviceSynchronize" if dev_sync else "cudaStreamSynchronize", host_pid, 1, sa, sb - sa, correlation=cs))
    ra = rng.randint(sa, max(sa, k1s))
    if dev_sync:
        evs.append({"ph": "X", "cat": "cuda_sync", "name": "Context Sync", "pid": gpu_pid, "tid": 0, "ts": ra, "dur": k1e - ra,
                    "args": {"cuda_sync_kind": "Context Sync", "stream": -1, "correlation": cs, "External id": evs[-1]["args"]["External id"]}})
    else:
        evs.append({"ph": "X", "cat": "cuda_sync", "name": "Stream Sync", "pid": gpu_pid, "tid": s1, "ts": ra, "dur": k1e - ra,
                    "args": {"cuda_sync_kind": "Stream Sync", "stream": s1, "correlation": cs, "External id": evs[-1]["args"]["External id"]}})
    tail_start = max(e["ts"] + e["dur"] for e in evs if e["tid"] == 1 and e["pid"] == host_pid) + rng.randint(0, 3)
    tail_dur = rng.randint(5, 80)
    evs.append(X("cpu_op", rng.choice(CPU_OPS), host_pid, 1, tail_start, tail_dur))
    launch_at_return = rng.random() < 0.35
    if launch_at_return:
        # a launch right after the blocking call; in the tie variant everything happens in the instant the call returns: the wait record
        # ended then (sb == k1e), the next operator starts then, its launch call starts then and the (zero-length) activity runs then
        c3 = corr[0]; corr[0] += 1
        evs.append(X("cuda_runtime", "cudaLaunchKernel", host_pid, 1, tail_start, rng.randint(1, 3), correlation=c3))
        evs.append(X("kernel", rng.choice(COMPUTE_KERNELS), gpu_pid, s1, max(tail_start, k1e), rng.choice([0, 0, rng.randint(1, 4)]), stream=s1,
                     device=gpu_pid, correlation=c3))
    # thread 2
    if not launch_at_return and rng.random() < 0.85:
        # launched while thread 1 is already blocked: work enqueued before the call would have to be waited for
        o2s = rng.randint(0, max(0, k1e - 6))
        l2 = rng.randint(max(o2s + 1, sa), max(o2s + 1, sa, k1e - 1))
        o2e = max(l2 + 2, rng.randint(l2 + 2, k1e + 10))
        c2 = corr[0]; corr[0] += 1
        evs.append(X("cpu_op", rng.choice(CPU_OPS), host_pid, 2, o2s, o2e - o2s))
        evs.append(X("cuda_runtime", "cudaLaunchKernel", host_pid, 2, l2, rng.randint(1, max(1, o2e - l2 - 1)), correlation=c2))
        gap = 0 if rng.random() < 0.6 else rng.randint(1, 3)
        k2s = max(k1e + gap, l2)
        k2d = rng.choice([rng.randint(1, 6), rng.randint(1, 30), 0])
        evs.append(X("kernel", rng.choice(COMPUTE_KERNELS), gpu_pid, s2, k2s, k2d, stream=s2, device=gpu_pid, correlation=c2))
    epoch = rng.choice([0, 1000000])
    first, rest = evs[0], evs[1:]
    rng.shuffle(rest)
    out = [first] + rest
    for e in out:
        e["ts"] += epoch
    T = max(e["ts"] + e["dur"] for e in out) - epoch
    return {"ranks": {0: {"events": out, "fmt": "gz" if rng.random() < 0.5 else "json", "indent": False}}, "profile": "sync_scenario",
            "seed": seed, "case_no": case_no, "T": T, "epoch": epoch}


def gen_backlog_scenario(seed: int, case_no: int) -> dict:
    """Template family 'the device runs behind': one host thread issues short operators that each launch a long kernel on one or two streams,
    over three to five profiler steps, so that kernels launched in one step are still queued or running when the next step begins (the first
    kernel launched inside a later window then has no predecessor inside the window and was launched with a non-empty queue).  Some steps end
    with a blocking cudaDeviceSynchronize that drains the device.  All instants are causally consistent."""
    rng = random.Random(seed * 4_000_037 + case_no)
    host_pid, gpu_pid = 1, 0
    streams = rng.sample([7, 13, 20], rng.randint(1, 2))
    ext = [1]
    corr = [100]
    evs = []

    def X(cat, name, pid, tid, ts, dur, **args):
        if cat in ("cpu_op", "cuda_runtime"):
            args.setdefault("External id", ext[0])
            ext[0] += 1
        e = {"ph": "X", "cat": cat, "name": name, "pid": pid, "tid": tid, "ts": ts, "dur": dur, "args": args}
        evs.append(e)
        return e

    t = rng.randint(0, 5)
    X("cpu_op", "aten::zeros", host_pid, 1, t, 2)
    t += 3
    free = {s_: 0 for s_ in streams}
    nsteps = rng.randint(3, 5)
    for st in range(nsteps + 1):
        s0 = t
        t += rng.randint(0, 2)
        for _ in range(rng.randint(1, 3)):
            d = rng.randint(6, 14)
            l = t + rng.randint(1, 2)
            c = corr[0]; corr[0] += 1
            X("cpu_op", rng.choice(CPU_OPS), host_pid, 1, t, d)
            X("cuda_runtime", "cudaLaunchKernel", host_pid, 1, l, rng.randint(1, 3), correlation=c)
            s_ = rng.choice(streams)
            ks = max(l + rng.randint(0, 3), free[s_] + rng.choice([0, 0, 1]))
            kd = rng.randint(10, 45)
            X("kernel", rng.choice(COMPUTE_KERNELS + COMM_KERNELS), gpu_pid, s_, ks, kd, stream=s_, device=gpu_pid, correlation=c)
            free[s_] = ks + kd
            t += d + rng.randint(0, 3)
        drained = max(free.values())
        if st > 0 and rng.random() < 0.45 and drained > t + 1:
            cs = corr[0]; corr[0] += 1
            sb = drained + rng.randint(0, 2)
            call = X("cuda_runtime", "cudaDeviceSynchronize", host_pid, 1, t, sb - t, correlation=cs)
            evs.append({"ph": "X", "cat": "cuda_sync", "name": "Context Sync", "pid": gpu_pid, "tid": 0, "ts": t, "dur": drained - t,
                        "args": {"cuda_sync_kind": "Context Sync", "stream": -1, "correlation": cs, "External id": call["args"]["External id"]}})
            t = sb + rng.randint(0, 2)
            X("cpu_op", rng.choice(CPU_OPS), host_pid, 1, t, rng.randint(3, 30))
            t = evs[-1]["ts"] + evs[-1]["dur"]
        end = t + rng.randint(0, 2)
        evs.append({"ph": "X", "cat": "user_annotation", "name": f"ProfilerStep#{100 + st}", "pid": host_pid, "tid": 1, "ts": s0, "dur": end - s0, "args": {}})
        t = end + rng.randint(0, 3)
    epoch = rng.choice([0, 1000000])
    first, rest = evs[0], evs[1:]
    rng.shuffle(rest)
    out = [first] + rest
    for e in out:
        e["ts"] += epoch
    T = max(e["ts"] + e["dur"] for e in out) - epoch
    return {"ranks": {0: {"events": out, "fmt": "gz" if rng.random() < 0.5 else "json", "indent": False}}, "profile": "backlog_scenario",
            "seed": seed, "case_no": case_no, "T": T, "epoch": epoch}


def gen_event_sync_scenario(seed: int, case_no: int) -> dict:
    """Template family for CUDA-event synchronisation (cudaEventRecord / cudaEventSynchronize / cudaStreamWaitEvent with their
    'Event Sync' / 'Stream Wait Event' records), one host thread, 1-3 streams.  A round = launch kA on stream S1; record an event on S1;
    then one of: (a) cudaEventSynchronize: the call returns after kA has ended; (b) cudaStreamWaitEvent on another stream S2 followed
    by a launch of kB on S2, kB starting after kA has ended; (c) nothing waits on the event.  Rounds follow each other in time."""
    rng = random.Random(seed * 3_000_017 + case_no)
    host_pid, gpu_pid = 1, 0
    streams = rng.sample([7, 13, 20, 24], rng.randint(2, 3))
    ext = [1]
    corr = [100]
    evs = []

    def host(cat, name, ts, dur, **args):
        args.setdefault("External id", ext[0])
        ext[0] += 1
        e = {"ph": "X", "cat": cat, "name": name, "pid": host_pid, "tid": 1, "ts": ts, "dur": dur, "args": args}
        evs.append(e)
        return e

    def dev(cat, name, tid, ts, dur, **args):
        e = {"ph": "X", "cat": cat, "name": name, "pid": gpu_pid, "tid": tid, "ts": ts, "dur": dur, "args": args}
        evs.append(e)
        return e

    t = rng.randint(0, 3)
    host("cpu_op", "aten::zeros", t, rng.randint(1, 3))
    t += 4
    free_at = {s_: 0 for s_ in streams}
    kinds = []
    for _ in range(rng.randint(1, 3)):
        s1 = rng.choice(streams)
        # operator launching kA
        op_start = t
        l = t + 1
        ldur = rng.randint(1, 3)
        c = corr[0]; corr[0] += 1
        host("cuda_runtime", "cudaLaunchKernel", l, ldur, correlation=c)
        kas = max(l + rng.randint(0, 4), free_at[s1])
        kad = rng.randint(2, 25)
        dev("kernel", rng.choice(COMPUTE_KERNELS), s1, kas, kad, stream=s1, device=gpu_pid, correlation=c)
        free_at[s1] = kas + kad
        t = l + ldur + rng.randint(0, 2)
        host("cpu_op", rng.choice(CPU_OPS), op_start, t - op_start)
        t += rng.randint(0, 2)
        # the event record
        r = corr[0]; corr[0] += 1
        host("cuda_runtime", "cudaEventRecord", t, rng.randint(1, 2), correlation=r)
        t += 2 + rng.randint(0, 2)
        kind = rng.choice(["event_sync", "stream_wait", "stream_wait", "none"])
        kinds.append(kind)
        if kind == "event_sync":
            w = corr[0]; corr[0] += 1
            ret = max(t + 1, kas + kad + rng.randint(0, 3))
            call = host("cuda_runtime", "cudaEventSynchronize", t, ret - t, correlation=w)
            ra = rng.randint(t, max(t, kas))
            dev("cuda_sync", "Event Sync", -1, ra, max(0, kas + kad - ra), cuda_sync_kind="Event Sync", wait_on_stream=s1, wait_on_cuda_event_record_corr_id=r,
                wait_on_cuda_event_id=rng.randint(1, 20), stream=-1, correlation=w, **{"External id": call["args"]["External id"]})
            t = ret + rng.randint(0, 2)
        elif kind == "stream_wait":
            s2 = rng.choice([x for x in streams if x != s1])
            w = corr[0]; corr[0] += 1
            call = host("cuda_runtime", "cudaStreamWaitEvent", t, rng.randint(1, 2), correlation=w)
            dev("cuda_sync", "Stream Wait Event", s2, t + 1, rng.randint(0, 2), cuda_sync_kind="Stream Wait Event", wait_on_stream=s1,
                wait_on_cuda_event_record_corr_id=r, wait_on_cuda_event_id=rng.randint(1, 20), stream=s2, correlation=w,
                **{"External id": call["args"]["External id"]})
            t += 3 + rng.randint(0, 2)
            # next launch on s2: kB waits for kA
            op_start = t
            l = t + 1
            ldur = rng.randint(1, 3)
            c2 = corr[0]; corr[0] += 1
            host("cuda_runtime", "cudaLaunchKernel", l, ldur, correlation=c2)
            kbs = max(l + rng.randint(0, 3), free_at[s2], kas + kad + (0 if rng.random() < 0.5 else rng.randint(0, 3)))
            kbd = rng.randint(1, 20)
            dev("kernel", rng.choice(COMPUTE_KERNELS + COMM_KERNELS), s2, kbs, kbd, stream=s2, device=gpu_pid, correlation=c2)
            free_at[s2] = kbs + kbd
            t = l + ldur + rng.randint(0, 2)
            host("cpu_op", rng.choice(CPU_OPS), op_start, t - op_start)
            t += rng.randint(0, 2)
    # a closing device synchronisation in most cases
    if rng.random() < 0.7:
        w = corr[0]; corr[0] += 1
        done = max(free_at.values())
        ret = max(t + 1, done + rng.randint(0, 2))
        call = host("cuda_runtime", "cudaDeviceSynchronize", t, ret - t, correlation=w)
        ra = rng.randint(t, max(t, min(done, ret)))
        dev("cuda_sync", "Context Sync", -1, ra, max(0, min(done, ret) - ra), cuda_sync_kind="Context Sync", stream=-1, correlation=w,
            **{"External id": call["args"]["External id"]})
        t = ret + 1
    host("cpu_op", rng.choice(CPU_OPS), t, rng.randint(2, 30))
    epoch = rng.choice([0, 1000000])
    first, rest = evs[0], evs[1:]
    rng.shuffle(rest)
    out = [first] + rest
    for e in out:
        e["ts"] += epoch
    T = max(e["ts"] + e["dur"] for e in out) - epoch
    return {"ranks": {0: {"events": out, "fmt": "gz" if rng.random() < 0.5 else "json", "indent": False}}, "profile": "event_sync_scenario",
            "seed": seed, "case_no": case_no, "T": T, "epoch": epoch, "kinds": kinds}


def gen_deep_case(seed: int, case_no: int, depth: int = 1100) -> dict:
    """one host thread whose events nest `depth` levels deep (a recursive Python function recorded with_stack=True does this), the
    innermost one launching a kernel"""
    rng = random.Random(seed * 7_000_003 + case_no)
    evs = [{"ph": "X", "cat": "cpu_op", "name": "aten::zeros", "pid": 100, "tid": 1, "ts": 0, "dur": 2, "args": {"External id": 1}}]
    for i in range(depth):
        evs.append({"ph": "X", "cat": "cpu_op", "name": f"recurse_{i % 5}", "pid": 100, "tid": 1, "ts": 10 + i, "dur": 4 * depth - 2 * i,
                    "args": {"External id": 2 + i}})
    t = 10 + depth + 2
    evs.append({"ph": "X", "cat": "cuda_runtime", "name": "cudaLaunchKernel", "pid": 100, "tid": 1, "ts": t, "dur": 3, "args": {"correlation": 7, "External id": 9}})
    evs.append({"ph": "X", "cat": "kernel", "name": "gemm", "pid": 0, "tid": 7, "ts": t + 5, "dur": 20, "args": {"stream": 7, "device": 0, "correlation": 7}})
    first, rest = evs[0], evs[1:]
    rng.shuffle(rest)
    return {"ranks": {0: {"events": [first] + rest, "fmt": "json", "indent": False}}, "profile": "deep", "seed": seed, "case_no": case_no,
            "T": 5 * depth, "epoch": 0, "deep": depth}


def gen_chain_case(seed: int, case_no: int) -> dict:
    """Narrow-column family: every duration of the rank is below 128 (the parser down-casts the dur column to int8; ids and
    counts stay small too) while SUMS and UNIONS of them are not: a chain of kernels of 60-110 us staggered every 40 us on two or
    three streams (one stretch of several hundred us), launched from short instances of a few operator names."""
    rng = random.Random(seed * 5_000_011 + case_no)
    host_pid, gpu_pid = 100, 0
    streams = rng.sample([7, 13, 20], rng.randint(2, 3))
    knames = rng.sample(["gemm_a", "relu", "ncclKernel_AllReduce", "Memcpy DtoD (Device -> Device)", "bn", "ncclDevKernel_AllGather", "conv"], 4)
    onames = rng.sample(["aten::linear", "aten::conv2d", "aten::relu_", "aten::add"], 2)
    ranks = {}
    for r in range(rng.randint(1, 2)):
        evs = [{"ph": "X", "cat": "cpu_op", "name": "aten::zeros", "pid": host_pid, "tid": 1, "ts": 0, "dur": 2, "args": {"External id": 1}}]
        n = rng.randint(8, 16)
        step = rng.choice([30, 40, 50])
        for j in range(n):
            t0 = step * j + 5
            evs.append({"ph": "X", "cat": "cpu_op", "name": onames[j % 2], "pid": host_pid, "tid": 1, "ts": t0, "dur": rng.randint(12, step - 6),
                        "args": {"External id": 10 + j}})
            evs.append({"ph": "X", "cat": "cuda_runtime", "name": "cudaLaunchKernel", "pid": host_pid, "tid": 1, "ts": t0 + 2, "dur": rng.randint(1, 4),
                        "args": {"correlation": 100 + j, "External id": 10 + j}})
            s_ = streams[j % len(streams)]
            evs.append({"ph": "X", "cat": "kernel", "name": knames[j % 2], "pid": gpu_pid, "tid": s_, "ts": t0 + 15 + rng.randint(0, 5),
                        "dur": rng.randint(60, 110), "args": {"stream": s_, "device": gpu_pid, "correlation": 100 + j, "External id": 10 + j}})
        first, rest = evs[0], evs[1:]
        rng.shuffle(rest)
        ranks[r] = {"events": [first] + rest, "fmt": "gz" if rng.random() < 0.5 else "json", "indent": False}
    return {"ranks": ranks, "profile": "chain", "seed": seed, "case_no": case_no, "T": 600, "epoch": 0}


def add_idless_sync_record(case: dict, rng) -> None:
    """A device-wide synchronisation record WITHOUT correlation id (stream -1) in every rank: it must stay unlinked and must not
    attract the id-less host events."""
    for rk in case["ranks"].values():
        evs = rk["events"]
        ts = [e["ts"] for e in evs if "ts" in e and "dur" in e]
        if not ts:
            continue
        a = rng.randint(min(ts), max(ts))
        gp = next((e["pid"] for e in evs if e.get("cat") in ("kernel", "gpu_memcpy", "gpu_memset")), 0)
        evs.insert(rng.randint(1, len(evs)), {"ph": "X", "cat": "cuda_sync", "name": rng.choice(["Event Sync", "Context Sync"]), "pid": gp, "tid": 0,
                                               "ts": a, "dur": rng.randint(0, 5), "args": {"cuda_sync_kind": "Event Sync", "stream": -1}})


def bigvocab(name: str) -> Profile:
    """the named profile with ranks that carry vocabularies of their own (60-100 operator names per rank on a padding thread): more
    than 127 symbols in the job while a rank's own table stays below 128 (narrow local id columns, wide job-wide ids)"""
    p = PROFILES[name]
    return replace(p, name=name + "+bigvocab", n_ranks=(max(2, p.n_ranks[0]), max(3, p.n_ranks[1])), n_pad=(60, 100), unique_pad_names=True)


def make_superset_rank(case: dict, rng, fresh_ids: bool = False) -> None:
    """one later rank whose vocabulary is the union of all ranks' (its local symbol table has the job table's size, in another
    order): copies of the other ranks' entries are appended to it"""
    import copy
    ks = sorted(case["ranks"].keys())
    if len(ks) < 2:
        return
    tgt = rng.choice(ks[1:])
    extra = []
    for j, r in enumerate(ks):
        if r == tgt:
            continue
        for e in case["ranks"][r]["events"]:
            if str(e.get("name", "")).startswith("ProfilerStep"):
                continue
            e2 = copy.deepcopy(e)
            a = e2.get("args")
            if fresh_ids and isinstance(a, dict) and isinstance(a.get("correlation"), int) and a["correlation"] > 0:
                a["correlation"] += 1000000 * (j + 1)       # the copies keep their pairing but share no id with the rank's own rows
            extra.append(e2)
    case["ranks"][tgt]["events"].extend(extra)


def scale_case(case: dict, k: int) -> None:
    """every time stamp and duration multiplied by the integer k (a long trace: sums pass 2**24 and 2**31; the models are
    homogeneous in time, Cxx_resolution_independent)"""
    top = max([e.get("ts", 0) + e.get("dur", 0) for rk in case["ranks"].values() for e in rk["events"]
               if isinstance(e.get("ts", 0), int) and isinstance(e.get("dur", 0), int)] + [1])
    while k > 1 and top * k >= 2 ** 50:      # stay exactly representable as doubles
        k //= 10
    for rk in case["ranks"].values():
        for e in rk["events"]:
            for f in ("ts", "dur"):
                if isinstance(e.get(f), int) and not isinstance(e.get(f), bool):
                    e[f] = e[f] * k
    if isinstance(case.get("epoch"), int):
        case["epoch"] = case["epoch"] * k
    if isinstance(case.get("T"), int):
        case["T"] = case["T"] * k
    case.setdefault("params", {})["time_factor"] = k


def scale_case_int32_edge(case: dict) -> None:
    """times multiplied so that the latest START (counted from the earliest event of the job) just fits in 31 bits while the latest
    ends do not: columns that are narrowed 'when they fit' meet sums that do not"""
    ts = [e["ts"] for rk in case["ranks"].values() for e in rk["events"] if isinstance(e.get("ts"), int) and "dur" in e]
    if not ts or max(ts) == min(ts) or max(ts) > 10 ** 7:
        return
    k = (2 ** 31 - 1) // (max(ts) - min(ts))
    if k > 1:
        scale_case(case, k)


def lookalike_launch_names(case: dict, rng, p: float = 0.3) -> None:
    """some linked runtime calls get names that only CONTAIN a launch name (per-thread-stream variants): they are not launch calls"""
    for rk in case["ranks"].values():
        for e in rk["events"]:
            if e.get("cat") in ("cuda_runtime", "cuda_driver") and e.get("name") in LAUNCH_KERNEL_NAMES + LAUNCH_MEM_NAMES and rng.random() < p:
                e["name"] = e["name"] + rng.choice(["_ptsz", "_v2", "Async_internal"])


TRICKY_KERNEL_NAMES = ["ncclAllGather_RING_SIMPLE(ncclDevKernelArgs*)", "void reduce_kernel<SyncPolicy>(int)", "void at::vectorized<Memcpy>(float*)",
                       "ncclDevFunc<AllReduceKernel>(int)", "void helper<int>(MemsetArgs*)"]


def tricky_kernel_names(case: dict, rng, p: float = 0.4) -> None:
    """device kernels whose kind is decided by text inside <...> or (...): the shortened display name is of another kind"""
    for rk in case["ranks"].values():
        for e in rk["events"]:
            if e.get("cat") in ("kernel", "Kernel") and isinstance((e.get("args") or {}).get("stream"), int) and rng.random() < p:
                e["name"] = rng.choice(TRICKY_KERNEL_NAMES)


def big_correlation_ids(case: dict, rng) -> None:
    """correlation ids around 2**31 and 2**32 (pairings kept): ids that differ by 2**32 must not be confused, ids above 2**31 are ids"""
    for rk in case["ranks"].values():
        base = rng.choice([2 ** 31 - 3, 2 ** 31 + 5, 2 ** 32 - 2])
        for e in rk["events"]:
            a = e.get("args")
            if isinstance(a, dict) and isinstance(a.get("correlation"), int) and a["correlation"] > 0:
                a["correlation"] = a["correlation"] + base
        # an unlinked device activity whose id differs from a host call's id by exactly 2**32
        hosts = [e for e in rk["events"] if isinstance(e.get("args"), dict) and isinstance(e["args"].get("correlation"), int)
                 and e["args"]["correlation"] > 0 and "stream" not in e["args"]]
        devs = [e for e in rk["events"] if isinstance(e.get("args"), dict) and isinstance(e["args"].get("stream"), int) and e["args"]["stream"] > 0]
        if hosts and devs:
            h, d = rng.choice(hosts), rng.choice(devs)
            rk["events"].append({"ph": "X", "cat": "kernel", "name": "far_id_kernel", "pid": d["pid"], "tid": d["tid"], "ts": h["ts"] + 1, "dur": 1,
                                 "args": {"stream": d["args"]["stream"], "device": d["pid"], "correlation": h["args"]["correlation"] + 2 ** 32}})


def huge_thread_ids(case: dict) -> None:
    """host thread ids as pthread prints them (far beyond 2**31): root ids -abs(tid) must not be narrowed"""
    for rk in case["ranks"].values():
        host_tids = sorted({e["tid"] for e in rk["events"] if e.get("ph") == "X" and "dur" in e and isinstance(e.get("tid"), int)
                            and "stream" not in (e.get("args") or {}) and e.get("cat") in ("cpu_op", "user_annotation", "cuda_runtime", "cuda_driver")})
        m = {t: 140737353971456 + 4096 * k for k, t in enumerate(host_tids) if t != 0}
        for e in rk["events"]:
            if isinstance(e.get("tid"), int) and e["tid"] in m and "stream" not in (e.get("args") or {}) and e.get("cat") not in ("kernel", "gpu_memcpy", "gpu_memset", "cuda_sync", "gpu_user_annotation"):
                e["tid"] = m[e["tid"]]


def add_second_process(case: dict, rng, shift: int = 0) -> None:
    """A second host process in some ranks whose thread has the SAME thread id as a thread of the first one (as with several
    processes recorded into one trace): a copy of one host thread's events under another pid; its launch-like calls get fresh
    correlation ids without device partner."""
    for rk in case["ranks"].values():
        evs = rk["events"]
        host = [e for e in evs if e.get("ph") == "X" and "dur" in e and e.get("cat") in ("cpu_op", "user_annotation", "cuda_runtime", "cuda_driver")
                and "stream" not in (e.get("args") or {})]
        if not host or rng.random() < 0.3:
            continue
        pid0 = host[0]["pid"]
        tids = sorted({e["tid"] for e in host if e["pid"] == pid0})
        tid = rng.choice(tids)
        new_pid = max(e["pid"] for e in evs if isinstance(e.get("pid"), int)) + rng.choice([1, 50])
        corr = max([(e.get("args") or {}).get("correlation", 0) for e in evs if isinstance((e.get("args") or {}).get("correlation", 0), int)] + [0]) + 1000
        import copy
        extra = []
        for e in host:
            if e["pid"] != pid0 or e["tid"] != tid or str(e.get("name", "")).startswith("ProfilerStep") or "autograd::" in str(e.get("name", "")):
                continue
            e2 = copy.deepcopy(e)
            e2["pid"] = new_pid
            if shift:
                e2["ts"] = e2["ts"] + shift        # the copy overlaps the original without being nested in it
            a = e2.get("args")
            if isinstance(a, dict) and "correlation" in a:
                corr += 1
                a["correlation"] = corr
            extra.append(e2)
        evs.extend(extra)


def host_rows_on_a_stream(case: dict, rng) -> None:
    """A host thread that shares its (process id, thread id) with a device stream (a trainer running as pid 1 beside GPU 1, its thread 7
    beside stream 7): copies of a few existing host operators, with nothing beneath them, are written with the pid / tid of one stream, at
    times before that stream's first activity."""
    import copy
    for rk in case["ranks"].values():
        evs = rk["events"]
        dev = [e for e in evs if e.get("ph") == "X" and "dur" in e and isinstance(e.get("args"), dict) and "stream" in e["args"]]
        ops = [e for e in evs if e.get("ph") == "X" and "dur" in e and e.get("cat") == "cpu_op" and not isinstance((e.get("args") or {}).get("correlation"), int)]
        dev = [e for e in dev if e["pid"] != 0 and e["tid"] != 0]       # process / thread id 0 is the subject of C13's known finding
        if not dev or not ops:
            continue
        k = rng.choice(dev)
        t0 = min(e["ts"] for e in dev if (e["pid"], e["tid"]) == (k["pid"], k["tid"]))
        for j, o in enumerate(rng.sample(ops, min(3, len(ops)))):
            o2 = copy.deepcopy(o)
            o2["pid"], o2["tid"] = k["pid"], k["tid"]
            o2["ts"], o2["dur"] = t0 - 4 * (j + 1), 2
            o2["args"] = {}
            evs.append(o2)
        case["host_rows_on_stream"] = True


def relabel_ranks(case: dict, salt: int = 0) -> dict:
    """give the ranks of a case arbitrary ids (a subset of a job, listed in arbitrary order) instead of 0..n-1"""
    rng = random.Random(case.get("seed", 0) * 7_000_003 + case.get("case_no", 0) * 31 + salt)
    old = list(case["ranks"].keys())
    new = rng.sample(range(0, 10), len(old))
    case["ranks"] = {n: case["ranks"][o] for o, n in zip(old, new)}
    case["rank_ids_relabelled"] = True
    return case


def write_case(case: dict, d: str) -> Dict[int, str]:
    """Write the rank files of a case into directory d; returns rank -> path."""
    os.makedirs(d, exist_ok=True)
    paths: Dict[int, str] = {}
    for r, rk in case["ranks"].items():
        r = int(r)
        doc = {"schemaVersion": 1, "distributedInfo": {"rank": r}, "traceEvents": rk["events"]}
        if rk.get("meta_extra"):
            doc.update(rk["meta_extra"])
        if rk["fmt"] == "gz":
            path = os.path.join(d, f"rank{r}_trace.json.gz")
            with gzip.open(path, "wt") as fh:
                json.dump(doc, fh, indent=2 if rk.get("indent") else None)
        else:
            path = os.path.join(d, f"rank{r}_trace.json")
            with open(path, "w") as fh:
                json.dump(doc, fh, indent=2 if rk.get("indent") else None)
        paths[r] = path
    return paths


def features(case: dict) -> Dict[str, int]:
    """Measured input features (for the evidence histograms)."""
    f = {"events": 0, "zero_dur": 0, "equal_ts_pairs": 0, "device": 0, "host": 0, "nonevents": 0, "ranks": len(case["ranks"]),
         "steps": 0, "launches": 0, "identical_spans": 0}
    for rk in case["ranks"].values():
        seen_ts: Dict[Any, int] = {}
        seen_span: Dict[Any, int] = {}
        for e in rk["events"]:
            if e.get("ph") != "X" or "dur" not in e or e.get("cat") in (None, "Trace"):
                f["nonevents"] += 1
                continue
            f["events"] += 1
            if e["dur"] == 0:
                f["zero_dur"] += 1
            st = (e.get("args") or {}).get("stream", -1)
            if isinstance(st, int) and st >= 0:
                f["device"] += 1
            else:
                f["host"] += 1
            if str(e.get("name", "")).startswith("ProfilerStep"):
                f["steps"] += 1
            if e.get("name") in LAUNCH_KERNEL_NAMES + LAUNCH_MEM_NAMES:
                f["launches"] += 1
            f["equal_ts_pairs"] += seen_ts.get(e["ts"], 0)
            seen_ts[e["ts"]] = seen_ts.get(e["ts"], 0) + 1
            k = (e["pid"], e["tid"], e["ts"], e["dur"])
            f["identical_spans"] += seen_span.get(k, 0)
            seen_span[k] = seen_span.get(k, 0) + 1
    return f


PROFILES: Dict[str, Profile] = {}


def _reg(p: Profile) -> Profile:
    PROFILES[p.name] = p
    return p


_reg(Profile(name="default"))
_reg(Profile(name="fifo_steps", n_steps=(0, 4), n_ranks=(1, 3)))
_reg(Profile(name="free_overlap", device="free", n_free_kernels=(1, 14), tmax_choices=(4, 6, 10, 20, 60), kernel_causal=False,
             p_launch=0.2, n_ranks=(1, 3), p_kernel_zero=0.12))
_reg(Profile(name="fifo_tiny", tmax_choices=(4, 6, 8, 12, 20), p_same_ts_as_launch=0.4, n_ranks=(1, 2), p_launch=0.6))
_reg(Profile(name="comm_overlap", device="free", n_free_kernels=(2, 12), tmax_choices=(4, 6, 10, 16, 30), kernel_causal=False,
             p_launch=0.2, n_ranks=(1, 3), p_kernel_zero=0.12,
             kernel_names=("ncclKernel_AllReduce_RING_LL_Sum_float(ncclWorkElem)", "ncclDevKernel_AllGather_RING", "nccl:all_reduceKernel",
                           "ampere_sgemm_128x64_nn", "elementwise", "ncclFoo", "xMemcpy", "Memcpy DtoD (Device -> Device)", "barSync",
                           "sm80_xmma_gemm", "ncclKernel_x")))
_reg(Profile(name="loader_pad", n_steps=(0, 3), n_ranks=(1, 2), n_pad=(125, 150), p_launch=0.5, p_sync=0.3))
_reg(Profile(name="loader_mix", n_steps=(0, 3), n_ranks=(1, 3), p_nonevents=0.9, p_string_pid_span=0.6, p_missing_kernel=0.2, p_orphan_kernel=0.3,
             p_sync=0.5, allow_host_stream_arg=True))
_reg(Profile(name="loader_s0", n_steps=(0, 1), n_ranks=(1, 3), p_nonevents=0.6, p_missing_kernel=0.2, p_orphan_kernel=0.3,
             p_sync=0.3, allow_host_stream_arg=True, stream_zero=True))
_reg(Profile(name="free_overlap_s0", device="free", n_free_kernels=(2, 14), tmax_choices=(4, 6, 10, 20, 60), kernel_causal=False,
             p_launch=0.3, n_ranks=(1, 3), p_kernel_zero=0.12, n_streams=(2, 3), allow_host_stream_arg=True, stream_zero=True))
_reg(Profile(name="steps_mix", n_steps=(0, 5), n_ranks=(1, 3), tmax_choices=(12, 24, 40, 110, 600), p_missing_kernel=0.15, p_orphan_kernel=0.2,
             p_sync=0.4, p_launch=0.5))
_reg(Profile(name="steps_tiny", n_steps=(2, 4), n_ranks=(1, 2), tmax_choices=(8, 10, 14), p_launch=0.5, p_same_ts_as_launch=0.3))
_reg(Profile(name="diff", n_steps=(1, 4), n_ranks=(1, 3), tmax_choices=(24, 40, 110, 600), p_launch=0.45, p_zero_dur=0.05, p_nonevents=0.2))
_reg(Profile(name="idle", tmax_choices=(8, 12, 20, 40, 110, 600), n_ranks=(1, 2), p_launch=0.6, p_same_ts_as_launch=0.25, p_missing_kernel=0.1,
             p_orphan_kernel=0.35, p_kernel_zero=0.12, n_streams=(1, 2), p_zero_dur=0.05))
_reg(Profile(name="idle_steps", tmax_choices=(20, 40, 110), n_ranks=(1, 2), n_steps=(0, 3), p_launch=0.6, p_orphan_kernel=0.3, n_streams=(1, 2)))
_reg(Profile(name="queue", tmax_choices=(6, 8, 12, 20, 40), n_ranks=(1, 2), p_launch=0.7, p_mem_launch=0.4, p_same_ts_as_launch=0.45, p_missing_kernel=0.1,
             p_orphan_kernel=0.2, p_kernel_zero=0.15, n_streams=(1, 3), p_zero_dur=0.1, max_children=5))
_reg(Profile(name="queue_skew", tmax_choices=(8, 12, 20, 40), n_ranks=(1, 2), p_launch=0.7, p_mem_launch=0.4, p_same_ts_as_launch=0.2, p_missing_kernel=0.1,
             p_orphan_kernel=0.1, p_kernel_zero=0.1, n_streams=(1, 3), p_zero_dur=0.1, max_children=5, kernel_causal=False))
_reg(Profile(name="queue_wide", tmax_choices=(110, 600, 5000), n_ranks=(1, 2), p_launch=0.7, p_mem_launch=0.4, n_streams=(1, 3), n_steps=(0, 3)))
_reg(Profile(name="meta", n_steps=(0, 3), n_ranks=(2, 3), tmax_choices=(12, 24, 40, 110), p_launch=0.55, p_mem_launch=0.35, p_orphan_kernel=0.2, p_sync=0.2))
_reg(Profile(name="comm_overlap_bigvocab", device="free", n_free_kernels=(2, 12), tmax_choices=(10, 16, 30), kernel_causal=False,
             p_launch=0.2, n_ranks=(2, 3), p_kernel_zero=0.1, n_pad=(60, 100), unique_pad_names=True,
             kernel_names=("ncclKernel_AllReduce_RING_LL_Sum_float(ncclWorkElem)", "ncclDevKernel_AllGather_RING", "nccl:all_reduceKernel",
                           "ampere_sgemm_128x64_nn", "elementwise", "ncclFoo", "xMemcpy", "Memcpy DtoD (Device -> Device)", "barSync",
                           "sm80_xmma_gemm", "ncclKernel_x")))
_reg(Profile(name="kbreak", device="free", n_free_kernels=(3, 18), tmax_choices=(6, 10, 16, 30, 110), kernel_causal=False, p_launch=0.3, n_ranks=(1, 3),
             p_kernel_zero=0.1, p_gpu_annotation=0.6))
_reg(Profile(name="kbreak_fewnames", device="free", n_free_kernels=(4, 18), tmax_choices=(6, 10, 16, 30), kernel_causal=False, p_launch=0.2, n_ranks=(1, 2),
             p_gpu_annotation=0.5,
             kernel_names=("gemm_a", "gemm_b", "gemm_c", "relu", "ncclKernel_AllReduce", "ncclDevKernel_AllGather", "Memcpy DtoD (Device -> Device)",
                           "Memset (Device)", "conv", "bn", "softmax", "ncclKernel_x")))
_reg(Profile(name="stack_tiny", tmax_choices=(4, 6, 8, 12, 20), n_ranks=(1, 2), n_threads=(1, 3), max_depth=5, max_children=4, p_zero_dur=0.12, p_identical=0.2,
             p_launch=0.2, device="fifo", p_nonevents=0.2))
_reg(Profile(name="stack_nozero", tmax_choices=(4, 6, 8, 12, 20, 110), n_ranks=(1, 2), n_threads=(1, 3), max_depth=5, max_children=4, p_zero_dur=0.0,
             p_identical=0.25, p_launch=0.2, device="fifo", p_kernel_zero=0.0, p_nonevents=0.2))
_reg(Profile(name="cgraph", tmax_choices=(12, 24, 40, 110), n_ranks=(1, 2), n_threads=(1, 3), max_depth=4, p_zero_dur=0.0, p_launch=0.5, p_missing_kernel=0.15, p_sync=0.25,
             p_orphan_kernel=0.2, n_steps=(0, 3), p_kernel_zero=0.05, epoch_choices=(0, 1000000, 1700000000000000)))
_reg(Profile(name="cgraph_bwd", tmax_choices=(24, 40, 110), n_ranks=(1, 2), n_threads=(2, 2), max_depth=3, p_zero_dur=0.0, p_launch=0.5, n_steps=(1, 3),
             p_bwd_thread=0.9, epoch_choices=(0, 1000000)))
_reg(Profile(name="cgraph_big", tmax_choices=(600, 5000), n_ranks=(1, 1), n_threads=(1, 2), max_depth=4, p_zero_dur=0.0, p_launch=0.5, n_steps=(0, 2), n_pad=(130, 160),
             epoch_choices=(0, 1000000)))
_reg(Profile(name="kseq", tmax_choices=(24, 40, 110, 600), n_ranks=(1, 2), n_threads=(1, 2), max_depth=4, max_children=4, p_zero_dur=0.0, p_launch=0.6,
             p_missing_kernel=0.1, p_orphan_kernel=0.1, n_steps=(0, 2), p_kernel_zero=0.05, p_same_ts_as_launch=0.05,
             kernel_names=("gemm", "relu", "ncclKernel_AllReduce", "Memcpy DtoD (Device -> Device)", "bn")))
_reg(Profile(name="kseq_bwd", tmax_choices=(24, 40, 110), n_ranks=(1, 2), n_threads=(2, 2), max_depth=4, max_children=4, p_zero_dur=0.0, p_launch=0.6,
             p_missing_kernel=0.1, p_orphan_kernel=0.1, n_steps=(1, 2), p_kernel_zero=0.05, p_same_ts_as_launch=0.05, p_bwd_thread=0.9,
             kernel_names=("gemm", "relu", "ncclKernel_AllReduce", "Memcpy DtoD (Device -> Device)", "bn")))
_reg(Profile(name="cp", tmax_choices=(20, 40, 110, 600), n_ranks=(1, 2), n_threads=(1, 2), max_depth=4, p_zero_dur=0.0, p_launch=0.55, p_mem_launch=0.3,
             p_missing_kernel=0.1, p_orphan_kernel=0.1, n_steps=(0, 3), p_kernel_zero=0.03, p_same_ts_as_launch=0.1, p_sync=0.6, causal_sync=True,
             p_sync_touch=0.8, more_inner_annotations=True, shared_names=True, n_streams=(1, 3), epoch_choices=(0, 1000000)))
_reg(Profile(name="meta_bigvocab", n_steps=(0, 2), n_ranks=(2, 3), tmax_choices=(24, 40, 110), p_launch=0.5, p_mem_launch=0.3, n_pad=(60, 100),
             unique_pad_names=True))
_reg(Profile(name="cp_neg", tmax_choices=(20, 40, 110), n_ranks=(1, 1), n_threads=(1, 2), max_depth=4, p_zero_dur=0.0, p_launch=0.6, p_mem_launch=0.3,
             p_missing_kernel=0.1, n_steps=(0, 2), p_same_ts_as_launch=0.1, p_sync=0.3, causal_sync=True, p_fifo_overlap=0.5, kernel_causal=False,
             n_streams=(1, 2), epoch_choices=(0, 1000000)))
_reg(Profile(name="cp_zero", tmax_choices=(10, 14, 20, 40), n_ranks=(1, 1), n_threads=(1, 2), max_depth=3, p_zero_dur=0.15, p_launch=0.6, p_mem_launch=0.3,
             n_steps=(0, 2), p_kernel_zero=0.05, p_same_ts_as_launch=0.3, p_sync=0.5, causal_sync=True, p_sync_touch=0.8, more_inner_annotations=True, shared_names=True, n_streams=(1, 2), epoch_choices=(0,)))
_reg(Profile(name="cp_tiny", tmax_choices=(10, 14, 20), n_ranks=(1, 1), n_threads=(1, 2), max_depth=3, p_zero_dur=0.0, p_launch=0.6, p_mem_launch=0.3,
             n_steps=(0, 2), p_kernel_zero=0.05, p_same_ts_as_launch=0.3, p_sync=0.7, causal_sync=True, p_sync_touch=0.8, more_inner_annotations=True, shared_names=True, n_streams=(1, 2), epoch_choices=(0,)))
