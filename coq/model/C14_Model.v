(* C14: queue-length and memory-bandwidth counters (hta/analyzers/trace_counters.py), the launch query
   (hta/common/trace_symbol_table.py get_runtime_launch_events_query), convert_time_series_to_events
   (hta/common/trace.py); hand model. *)
From HTA.lib Require Import Base.
Open Scope Z_scope.

Definition memZ (x : Z) (l : list Z) : bool := existsb (Z.eqb x) l.

Definition launch_names : list string :=
  ["cudaMemsetAsync"; "cudaMemcpyAsync"; "cudaLaunchKernel"; "cudaLaunchKernelExC"; "cuLaunchKernel";
   "runFunction - job_prep_and_submit_for_execution"; "hipLaunchKernel"; "hipExtModuleLaunchKernel";
   "hipMemcpyAsync"; "hipMemsetAsync"; "hipMemcpyWithStream"].
Definition is_launch (e : ev) : bool := str_in (name e) launch_names && (0 <? icorr e).

Definition dev_rows (l : list ev) : list ev := filter (fun e => negb (stream e =? -1)) l.
Definition launches (l : list ev) : list ev := filter is_launch l.

(* a row of the merged frame: time, +1 / -1, event id, and the stream / pid / tid of the device activity *)
Record qrow := mkQ { q_ts : Z; q_delta : Z; q_id : Z; q_stream : Z; q_pid : Z; q_tid : Z }.

(* runtime_calls.join(gpu_kernels.set_index("correlation"), on="correlation") *)
Definition launch_rows (l : list ev) : list qrow :=
  flat_map (fun r => map (fun k => mkQ (ts r) 1 (idx r) (stream k) (pid k) (tid k))
                         (filter (fun k => corr k =? corr r) (dev_rows l))) (launches l).
(* gpu_kernels[gpu_kernels.correlation.isin(runtime_calls.correlation)] *)
Definition kernel_rows (l : list ev) : list qrow :=
  map (fun k => mkQ (ts k) (-1) (idx k) (stream k) (pid k) (tid k))
      (filter (fun k => memZ (corr k) (map corr (launches l))) (dev_rows l)).

(* sort by (ts ascending, queue descending): launches before activity starts inside one instant *)
Definition q_lt (x y : qrow) : bool := (q_ts x <? q_ts y) || ((q_ts x =? q_ts y) && (q_delta y <? q_delta x)).
Fixpoint insert_q (x : qrow) (l : list qrow) : list qrow :=
  match l with
  | [] => [x]
  | y :: r => if q_lt x y then x :: l else y :: insert_q x r
  end.
Definition sort_q (l : list qrow) : list qrow := fold_right insert_q [] l.

Fixpoint cumsum (acc : Z) (l : list qrow) : list (qrow * Z) :=
  match l with [] => [] | x :: r => (x, acc + q_delta x) :: cumsum (acc + q_delta x) r end.

Definition stream_series (l : list ev) (s : Z) : list (qrow * Z) :=
  cumsum 0 (sort_q (filter (fun x => q_stream x =? s) (launch_rows l ++ kernel_rows l))).

Fixpoint insertZ (x : Z) (l : list Z) : list Z :=
  match l with [] => [x] | y :: r => if x <? y then x :: l else if x =? y then l else y :: insertZ x r end.
Definition streams_of (l : list ev) : list Z := fold_right insertZ [] (map q_stream (launch_rows l ++ kernel_rows l)).

(* per stream: the value sequence [ts; queue_length] in series order, and the rows [id; ts; pid; tid; stream] *)
Definition encode_queue (l : list ev) : list (Z * list (list Z) * list (list Z)) :=
  map (fun s => let ser := stream_series l s in
                (s, map (fun p => [q_ts (fst p); snd p]) ser,
                 sort_rows (map (fun p => [q_id (fst p); q_ts (fst p); q_pid (fst p); q_tid (fst p); q_stream (fst p)]) ser)))
      (streams_of l).

(* ---------------- memory bandwidth ---------------- *)
(* bandwidth values are passed multiplied by 4 (the generator draws multiples of 1/4) *)
Definition mem_type (n : string) : string :=
  if String.eqb (take_str 6 n) "Memset" then "Memset"
  else if negb (String.eqb (take_str 6 n) "Memcpy") then "Memcpy Unknown"
  else take_str 11 n.
Definition is_mem (e : ev) : bool := negb (stream e =? -1) && ktype_eqb (get_kernel_type (name e)) MEMORY.

Record brow := mkB { b_ts : Z; b_delta : Z; b_pid : Z; b_type : string }.
Definition dur1 (e : ev) : Z := if dur e =? 0 then 1 else dur e.
Definition bw_rows (l : list (ev * Z)) : list brow :=
  let m := filter (fun p => is_mem (fst p)) l in
  map (fun p => mkB (ts (fst p)) (snd p) (pid (fst p)) (mem_type (name (fst p)))) m ++
  map (fun p => mkB (ts (fst p) + dur1 (fst p)) (- snd p) (pid (fst p)) (mem_type (name (fst p)))) m.

Fixpoint insert_b (x : brow) (l : list brow) : list brow :=
  match l with
  | [] => [x]
  | y :: r => if b_ts x <? b_ts y then x :: l else y :: insert_b x r
  end.
Definition sort_b (l : list brow) : list brow := fold_right insert_b [] l.
Fixpoint cumsum_b (acc : Z) (l : list brow) : list (brow * Z) :=
  match l with [] => [] | x :: r => (x, acc + b_delta x) :: cumsum_b (acc + b_delta x) r end.
Definition type_series (l : list (ev * Z)) (t : string) : list (brow * Z) :=
  cumsum_b 0 (sort_b (filter (fun x => String.eqb (b_type x) t) (bw_rows l))).

(* value of a step series after the last row of each instant: [ts; value] with one entry per distinct ts *)
Fixpoint last_per_instant (l : list (Z * Z)) : list (list Z) :=
  match l with
  | [] => []
  | (t, v) :: r => match r with
                   | (t', _) :: _ => if t =? t' then last_per_instant r else [t; v] :: last_per_instant r
                   | [] => [[t; v]]
                   end
  end.

Definition encode_bw (tab : list string) (l : list (ev * Z)) : list (Z * list (list Z)) :=
  map (fun t => (index_of t tab, last_per_instant (map (fun p => (b_ts (fst p), snd p)) (type_series l t)))) tab.
