From Coq Require Import Permutation Sorted.
From HTA.lib Require Import Base Cells Intervals Sweep.
From HTA.model Require Import C04_Model C07_Model.
From HTA.proof Require Import C04_Proofs.

Lemma insert_time_perm x l : Permutation (x :: l) (insert_time x l).
Proof.
  induction l as [|y r IH]; simpl; [apply Permutation_refl|].
  destruct (fst x <? fst y); [apply Permutation_refl|].
  eapply perm_trans; [apply perm_swap|]. apply perm_skip. exact IH.
Qed.

Lemma sort_time_perm l : Permutation l (sort_time l).
Proof.
  induction l as [|x l IH]; simpl; [constructor|].
  eapply perm_trans; [apply perm_skip; exact IH | apply insert_time_perm].
Qed.

Lemma insert_time_sorted x l : sorted_time l -> sorted_time (insert_time x l).
Proof.
  induction l as [|y r IH]; intro Hs; simpl.
  - constructor; constructor.
  - inversion Hs as [|? ? Hs' Hall]; subst.
    destruct (fst x <? fst y) eqn:E.
    + constructor; [exact Hs|]. constructor; [lia|].
      eapply Forall_impl; [|exact Hall]. intros a Ha. simpl in Ha. lia.
    + constructor; [apply IH; exact Hs'|].
      assert (Hp := insert_time_perm x r).
      rewrite Forall_forall in *. intros a Ha.
      apply Permutation_sym in Hp. apply (Permutation_in _ Hp) in Ha.
      destruct Ha as [Ha|Ha]; [subst; lia | apply Hall; exact Ha].
Qed.

Lemma sort_time_sorted l : sorted_time (sort_time l).
Proof. induction l as [|x l IH]; simpl; [constructor | apply insert_time_sorted; exact IH]. Qed.

Lemma comm_itvs_wf l : durs_nonneg l -> wf_itvs (comm_itvs l).
Proof.
  intro H. unfold comm_itvs, wf_itvs. rewrite Forall_forall. intros i Hi.
  apply in_map_iff in Hi. destruct Hi as [e [He Hin]]. subst i. apply filter_In in Hin.
  destruct Hin as [Hin _]. unfold itv_of. simpl. specialize (H e Hin). lia.
Qed.

Lemma comp_itvs_wf l : durs_nonneg l -> wf_itvs (comp_itvs l).
Proof.
  intro H. unfold comp_itvs, wf_itvs. rewrite Forall_forall. intros i Hi.
  apply in_map_iff in Hi. destruct Hi as [e [He Hin]]. subst i. apply filter_In in Hin.
  destruct Hin as [Hin _]. unfold itv_of. simpl. specialize (H e Hin). lia.
Qed.

(* the interval-level statement: A, B arbitrary well-formed interval sets *)
Theorem overlap_exact_itvs (A B A' B' : list itv) (R' : list row) lo hi :
  wf_itvs A -> wf_itvs B ->
  Permutation A A' -> sorted_ts A' -> Permutation B B' -> sorted_ts B' ->
  Permutation (status_rows (merge_sorted A') (merge_sorted B')) R' -> sorted_time R' ->
  (forall i, In i (A ++ B) -> lo <= fst i /\ snd i <= hi) ->
  let (num, den) := overlap A' R' in
  num = cells (fun t => covered A t && covered B t) lo hi /\
  den = cells (covered A) lo hi /\ 0 <= num <= den.
Proof.
  intros HwA HwB HpA HsA HpB HsB HpR HsR Hb. unfold overlap.
  assert (HwA' : wf_itvs A') by (eapply wf_perm; eauto).
  assert (HwB' : wf_itvs B') by (eapply wf_perm; eauto).
  assert (HbA' : forall i, In i A' -> lo <= fst i /\ snd i <= hi).
  { intros i Hi. apply Hb. apply in_or_app. left. apply Permutation_sym in HpA. eapply Permutation_in; eauto. }
  assert (HbB' : forall i, In i B' -> lo <= fst i /\ snd i <= hi).
  { intros i Hi. apply Hb. apply in_or_app. right. apply Permutation_sym in HpB. eapply Permutation_in; eauto. }
  pose proof (merge_sorted_separated A' HwA' HsA) as SA.
  pose proof (merge_sorted_separated B' HwB' HsB) as SB.
  assert (Hnum : sweep (Z.eqb 3) 0 R' = cells (fun t => covered A t && covered B t) lo hi).
  { rewrite (sweep_exact (Z.eqb 3) (status_rows (merge_sorted A') (merge_sorted B')) R' lo hi); auto.
    - apply cells_ext. intros t _. unfold status_rows. rewrite level_app.
      rewrite !level_rows_of by (apply separated_wf; assumption).
      rewrite !separated_cover_count by assumption.
      rewrite !merge_sorted_covered by assumption.
      rewrite <- (covered_perm A A' t HpA), <- (covered_perm B B' t HpB).
      destruct (covered A t), (covered B t); reflexivity.
    - unfold status_rows. rewrite map_app, sumZ_app, !rows_of_sum. reflexivity.
    - intros r Hr. unfold status_rows in Hr. apply in_app_or in Hr. destruct Hr as [Hr|Hr].
      + eapply rows_of_bounds; [| apply separated_wf; exact SA | exact Hr].
        apply merge_sorted_bounds; assumption.
      + eapply rows_of_bounds; [| apply separated_wf; exact SB | exact Hr].
        apply merge_sorted_bounds; assumption. }
  assert (Hden : total (merge_sorted A') = cells (covered A) lo hi).
  { apply total_merge_any; auto. intros i Hi. apply Hb. apply in_or_app. left. exact Hi. }
  rewrite Hnum, Hden. split; [reflexivity|]. split; [reflexivity|]. split.
  - apply cells_bounds.
  - apply cells_mono. intros t _ H. apply andb_prop in H. tauto.
Qed.

Theorem overlap_exact (l : list ev) : durs_nonneg l ->
  forall A' B' R' lo hi,
  Permutation (comm_itvs l) A' -> sorted_ts A' -> Permutation (comp_itvs l) B' -> sorted_ts B' ->
  Permutation (status_rows (merge_sorted A') (merge_sorted B')) R' -> sorted_time R' ->
  (forall i, In i (comm_itvs l ++ comp_itvs l) -> lo <= fst i /\ snd i <= hi) ->
  let (num, den) := overlap A' R' in
  num = cells (fun t => covered (comm_itvs l) t && covered (comp_itvs l) t) lo hi /\
  den = cells (covered (comm_itvs l)) lo hi /\ 0 <= num <= den.
Proof.
  intros Hd A' B' R' lo hi. apply overlap_exact_itvs; [apply comm_itvs_wf | apply comp_itvs_wf]; exact Hd.
Qed.

Theorem model_C07_instance l :
  let A' := sort_ts (comm_itvs l) in let B' := sort_ts (comp_itvs l) in
  let R' := sort_time (status_rows (merge_sorted A') (merge_sorted B')) in
  model_C07 l = overlap A' R' /\
  Permutation (comm_itvs l) A' /\ sorted_ts A' /\ Permutation (comp_itvs l) B' /\ sorted_ts B' /\
  Permutation (status_rows (merge_sorted A') (merge_sorted B')) R' /\ sorted_time R'.
Proof.
  cbv zeta. repeat split; try apply sort_ts_perm; try apply sort_ts_sorted;
    try apply sort_time_perm; apply sort_time_sorted.
Qed.

(* the percentage 100 * num / den lies in [0, 100] whenever it is defined *)
Theorem pct_bounds num den : 0 <= num <= den -> 0 < den -> 0 <= 100 * num <= 100 * den.
Proof. lia. Qed.
