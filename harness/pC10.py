"""C10: the critical-path breakdown conserves the path weight and attributes it correctly."""
import math
import random
import tracegen
import framework as fw
import cp_common as cp
import translate
import pC08

ID = "C10"
COQ_IMPORTS = ["From HTA.lib Require Import Dag.", "From HTA.model Require Import C08_Model C08_Host."]
SOURCES = cp.SOURCES
TRANSLATE = [translate.gen_cprules]
INPUT_CONTRACT = True        # the loaded frame is re-checked against the file (framework.input_contract)
N_CASES = {"quick": 250, "thorough": 4000}
RULE = ("the successful analyses of generated causally consistent traces and windows (as C08): get_critical_path_breakdown() is paired row by row with the critical "
        "edges, every row is judged by the verified checker check_C10 evaluated in Coq (one row per critical edge; durations add up to the path weight; a span edge "
        "is attributed to an existing event of the same thread/stream whose span covers the edge; a kernel-to-kernel edge to the kernel before the gap; bound_by "
        "follows from the attributed event), get_event_attribution_for_edge agrees with the rows, and summary() is the per-class share of the total adding up to "
        "100; non-trivial = at least three different bound_by classes on the path; distinct = hash of file set and parameters")
ASSUMPTIONS = ["percentages compared with relative tolerance 1e-9", "bound_by is computed by the code on the shortened name; the checker uses the full name (they agree on "
               "the generated kernel names)"]
TY = {"critical_path_operator": 0, "critical_path_dependency": 1, "critical_path_kernel_launch_delay": 2, "critical_path_kernel_kernel_delay": 3,
      "critical_path_sync_dependency": 4}
BOUND = {"cpu_bound": 0, "gpu_compute_bound": 1, "gpu_communication_bound": 2, "gpu_kernel_kernel_overhead": 3, "gpu_kernel_launch_overhead": 4, "": 5}
CHECKS = ["one breakdown row per critical edge (same edges, weights and types)", "the durations add up to the path's total weight",
          "every row's attribution and bound_by class follow the rule"]


def gen_cases(seed, tier, n):
    return pC08.gen_cases_shared(seed, tier, n)


def run_impl(case, d):
    res, ta, g = cp.run_cp(case, d, zero_weight_env=case["params"]["zw"])
    if g is None or "graph" not in res or not res.get("success"):
        return res
    try:
        res["traversal"] = cp.dump_host_traversal(ta, res["rank"], g)
    except Exception as e:
        res["traversal_error"] = type(e).__name__ + ": " + str(e)[:200]
    k = fw.time_scale(case)
    T = int if k == 1 else (lambda x: fw.as_int(x * k))
    try:
        edges = list(g.critical_path_edges_set)
        df = g.get_critical_path_breakdown()
        rows = cp.dump_breakdown(g, k)
        paired = []
        for e, r in zip(edges, rows):
            a = g.get_event_attribution_for_edge(e)
            paired.append({"u": int(e.begin), "v": int(e.end), "w": T(e.weight), "ty": TY[str(e.type.value)], "attr": -1 if a is None else int(a), "row": r})
        res["paired"] = paired
        res["n_rows"] = len(rows)
        res["n_edges"] = len(edges)
        import contextlib, io
        with contextlib.redirect_stdout(io.StringIO()):
            sm = g.summary()
        res["summary"] = {str(k): float(v) for k, v in sm.items()}
        nodes = {n[0]: n for n in res["graph"]["nodes"]}
        res["path_weight"] = sum(T(g.edges[u, v]["object"].weight) for u, v in zip(g.critical_path_nodes, g.critical_path_nodes[1:]))
    except Exception as e:
        import traceback
        res["bd_error"] = type(e).__name__ + ": " + str(e)[:200] + " @ " + traceback.format_exc()[-300:]
    if "bd_error" not in res and case.get("case_no", 0) % 2 == 0:
        # history (the documented what-if workflow, last step of the case): one edge ON the path is replaced by a copy one unit lighter and
        # critical_path() is called again; the breakdown is then about THAT path: one row per edge object now on it, durations adding up to it
        try:
            from hta.analyzers.critical_path_analysis import CPEdge
            rng = random.Random(case["params"]["pseed"] + 17)
            nodes = list(g.critical_path_nodes)
            cands = [(u, v) for u, v in zip(nodes, nodes[1:]) if g.edges[u, v]["object"].weight >= 2]
            if cands:
                u, v = rng.choice(cands)
                old = g.edges[u, v]["object"]
                new = CPEdge(begin=old.begin, end=old.end, weight=old.weight - 1, type=old.type)
                g.add_edge(u, v, weight=new.weight, object=new)
                problems = []
                if not g.critical_path():
                    problems.append("critical_path() did not succeed")
                else:
                    n2 = list(g.critical_path_nodes)
                    objs = [g.edges[a, b]["object"] for a, b in zip(n2, n2[1:])]
                    if set(objs) != set(g.critical_path_edges_set) or len(objs) != len(g.critical_path_edges_set):
                        stale = [(e.begin, e.end, T(e.weight)) for e in g.critical_path_edges_set if e not in set(objs)][:4]
                        problems.append(f"critical_path_edges_set is not the set of edges on the recomputed path; not on it (begin, end, weight): {stale}")
                    bd = g.get_critical_path_breakdown()
                    tot, want = sum(T(x) for x in bd["duration"]), sum(T(o.weight) for o in objs)
                    if len(bd) != len(objs) or tot != want:
                        problems.append(f"{len(bd)} breakdown rows adding up to {tot}; the recomputed path has {len(objs)} edges weighing {want}")
                    import contextlib, io
                    with contextlib.redirect_stdout(io.StringIO()):
                        sm = g.summary()
                    tot_pct = sum(float(x) for _, x in sm.items())
                    if abs(tot_pct - 100.0) > 1e-6:
                        problems.append(f"summary percentages add up to {tot_pct}")
                res["whatif"] = {"edge": [int(u), int(v)], "problems": problems}
        except Exception as e:
            res["whatif"] = {"edge": None, "problems": ["raised " + type(e).__name__ + ": " + str(e)[:200]]}
    return res


def coq_term(case, impl):
    if "paired" not in impl:
        return "[false]"
    nodes = pC08.nodes_lit(impl["graph"])
    cpe = "[" + "; ".join(f"mkE {fw.z(p['u'])} {fw.z(p['v'])} {fw.z(p['w'])} {p['ty']}" for p in impl["paired"]) + "]"
    rows = "[" + "; ".join(
        f"mkBR {fw.z(p['u'])} {fw.z(p['v'])} {fw.z(p['row']['duration'])} {TY[p['row']['type']]} "
        f"{fw.z(-1 if p['row']['event_idx'] is None else p['row']['event_idx'])} {BOUND.get(p['row']['bound_by'], -9)}" for p in impl["paired"]) + "]"
    return f"(check_C10 {pC08.clipped_lit(impl)} {nodes} {cpe} {rows} {fw.z(impl['path_weight'])}, {pC08.host_term(impl)})"


def compare(case, impl, model):
    w = f"(rank {impl.get('rank')}, annotation {impl.get('annotation')!r}, instance {impl.get('instance')})"
    if "error" in impl:
        if impl["error"].startswith("AssertionError") and impl.get("all_zero_weights"):
            return []      # not a successful analysis (C08's known finding): outside this property's quantifier
        return [f"critical_path_analysis raised {impl['error'][:300]} {w}"]
    if impl.get("none") or "graph" not in impl or not impl.get("success"):
        return []
    if "bd_error" in impl:
        return [f"breakdown raised {impl['bd_error']} {w}"]
    disc = []
    if impl["n_rows"] != impl["n_edges"]:
        disc.append(f"{impl['n_rows']} breakdown rows for {impl['n_edges']} critical edges {w}")
    for p in impl["paired"]:
        r = p["row"]
        if r["duration"] != p["w"] or TY[r["type"]] != p["ty"]:
            disc.append(f"breakdown row {r} does not describe critical edge {p['u']}->{p['v']} (weight {p['w']}, type {p['ty']})")
        if (-1 if r["event_idx"] is None else r["event_idx"]) != p["attr"]:
            disc.append(f"breakdown row attributes edge {p['u']}->{p['v']} to {r['event_idx']}, get_event_attribution_for_edge says {p['attr']}")
    for pr in (impl.get("whatif") or {}).get("problems", []):
        disc.append(f"after replacing edge {impl['whatif']['edge']} of the path by a copy one unit lighter and calling critical_path() again: {pr} {w}")
    host = []
    if len(model) == 2 and isinstance(model[0], list):
        model, host = model[0], model[1]
        disc += pC08.compare_host(impl, host, w)
    for ok, what in zip(model, CHECKS):
        if not ok:
            bad = [(p["u"], p["v"], p["ty"], p["row"]["event_idx"], p["row"]["bound_by"]) for p in impl["paired"]][:6]
            disc.append(f"check_C10 rejects the breakdown: {what}; rows (u, v, type, event, bound_by): {bad} {w}")
    total = sum(p["row"]["duration"] for p in impl["paired"])
    if total > 0:
        want = {}
        for p in impl["paired"]:
            want[p["row"]["bound_by"]] = want.get(p["row"]["bound_by"], 0) + p["row"]["duration"]
        want = {k: 100.0 * v / total for k, v in want.items()}
        got = impl["summary"]
        if set(got) != set(want) or any(abs(got[k] - want[k]) > 1e-9 * max(1.0, abs(want[k])) for k in want):
            disc.append(f"summary() = {got}, per-class shares of the total are {want}")
        if abs(sum(got.values()) - 100.0) > 1e-6:
            disc.append(f"summary percentages add up to {sum(got.values())}")
    return disc[:6]


def nontrivial(case, impl):
    return "paired" in impl and len({p["row"]["bound_by"] for p in impl["paired"]}) >= 3


def classify(case, impl, model, disc):
    return pC08.classify(case, impl, model, disc)


LEVEL_TEXT = ("Proof (verified checker): C10_check_sound: a breakdown accepted by check_C10 has exactly one row per critical edge, its durations add up to the path's "
              "weight, every span edge is attributed to an existing event of the same thread or stream whose span covers the edge's time range, every "
              "kernel-to-kernel edge to the kernel before the gap, and every row's bound_by class is the one the attributed event prescribes. The checker is evaluated "
              "in Coq on every breakdown; summary() is checked to be the per-class share adding up to 100. Host side additionally by proof about the attribution code "
              "itself: C10_host_attribution_covers: the enter / exit state machine with _attribute_edge's four cases (coq/model/C08_Host.v), over ANY depth-first "
              "traversal of properly nested events with or without graph nodes, attributes every operator-span edge to an existing event whose span covers it; "
              "the model's attributions are compared with the real graph's on every case.")
LEVEL_NOTE = ("Translation-validation style for the breakdown table and the device side; the host-side attribution is modelled and proved; inherits C08's restriction to traces without event-record synchronisation.")
TECHNIQUE = "Coq-verified checker (reflection of the attribution and bound-by rules) evaluated by vm_compute on every real breakdown"
