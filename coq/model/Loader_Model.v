(* The loading pipeline (hand model):
     parse   hta/common/trace_parser.py  _parse_trace_dataframe_json / _compress_df
     link    hta/common/trace.py         transform_correlation_to_index
     iter    hta/common/trace.py         add_iteration (_get_profiler_step)
     align   hta/common/trace.py         Trace._align_all_ranks
     trim    hta/common/trace.py         Trace._filter_irrelevant_gpu_kernels
   Integer timestamps; the rounding of fractional timestamps (round_down_time_stamps) is modelled
   separately over Q at the end of this file.  Serves C01, C02, C12. *)
From Coq Require Import QArith Qround.
From HTA.lib Require Import Base.
Open Scope Z_scope.

(* ---------- a raw entry of traceEvents ---------- *)
Record raw := mkRaw {
  r_dur : option Z;          (* "dur" present? *)
  r_cat : option string;     (* "cat" present? *)
  r_ts : Z; r_pid : Z; r_tid : Z;
  r_stream : option Z;       (* args.stream if present and an integer *)
  r_corr : option Z;         (* args.correlation if present *)
  r_name : string }.

(* _compress_df: dropna(subset=[dur, cat]); drop cat == "Trace" *)
Definition complete (r : raw) : bool :=
  match r_dur r, r_cat r with
  | Some _, Some c => negb (String.eqb c "Trace")
  | _, _ => false
  end.

Definition dflt (o : option Z) : Z := match o with Some z => z | None => -1 end.

Definition to_ev (i : Z) (r : raw) : ev :=
  mkEv i (r_ts r) (dflt (r_dur r)) (r_pid r) (r_tid r) (dflt (r_stream r)) (dflt (r_corr r)) (-1) (-1)
       (r_name r) (match r_cat r with Some c => c | None => "" end).

(* reset_index: the row id is the position in traceEvents *)
Fixpoint parse_from (i : Z) (f : list raw) : list ev :=
  match f with
  | [] => []
  | r :: f' => (if complete r then [to_ev i r] else []) ++ parse_from (i + 1) f'
  end.
Definition parse_file (f : list raw) : list ev := parse_from 0 f.

(* ---------- link: transform_correlation_to_index ---------- *)
Definition set_icorr (e : ev) (v : Z) : ev :=
  mkEv (idx e) (ts e) (dur e) (pid e) (tid e) (stream e) (corr e) v (iter e) (name e) (cat e).
Definition set_iter (e : ev) (v : Z) : ev :=
  mkEv (idx e) (ts e) (dur e) (pid e) (tid e) (stream e) (corr e) (icorr e) v (name e) (cat e).
Definition set_ts (e : ev) (v : Z) : ev :=
  mkEv (idx e) v (dur e) (pid e) (tid e) (stream e) (corr e) (icorr e) (iter e) (name e) (cat e).

(* p is a candidate partner of e: same correlation id (not -1), opposite side *)
Definition partner_b (e p : ev) : bool :=
  (corr p =? corr e) && negb (corr e =? -1) && xorb (is_dev p) (is_dev e).

Definition link_of (l : list ev) (e : ev) : Z :=
  match find (partner_b e) l with
  | Some p => idx p
  | None => Z.min (corr e) 0
  end.

Definition link (l : list ev) : list ev := map (fun e => set_icorr e (link_of l e)) l.

(* ---------- iteration: add_iteration ---------- *)
Definition is_digit (c : ascii) : bool := let n := nat_of_ascii c in (48 <=? n)%nat && (n <=? 57)%nat.
Fixpoint digits_val (acc : Z) (s : string) : Z :=
  match s with
  | String c s' => if is_digit c then digits_val (10 * acc + Z.of_nat (nat_of_ascii c - 48)) s' else acc
  | EmptyString => acc
  end.
Fixpoint skip_spaces (s : string) : string :=
  match s with String c s' => if Ascii.eqb c " " then skip_spaces s' else s | _ => s end.
(* re.match(r"ProfilerStep\s*#\s*(\d+)", s).group(1) for names of that shape *)
Definition step_no (n : string) : Z :=
  match skip_spaces (drop_str 12 n) with
  | String c s' => if Ascii.eqb c "#" then digits_val 0 (skip_spaces s') else -1
  | _ => -1
  end.

Definition is_step_name (n : string) : bool := starts_with "ProfilerStep" n.
Definition step_rows (l : list ev) : list ev := filter (fun e => is_step_name (name e)) l.

(* _get_profiler_step: the LAST step (in file order) whose half-open span contains ts *)
Definition step_of (steps : list ev) (t : Z) : Z :=
  fold_left (fun acc s => if (ts s <=? t) && (t <? ts s + dur s) then step_no (name s) else acc) steps (-1).

Definition iter_of (l : list ev) (e : ev) : Z :=
  if stream e <? 0 then step_of (step_rows l) (ts e)
  else if 0 <? stream e then
    (if 0 <? icorr e then
       match find (fun p => idx p =? icorr e) l with
       | Some p => step_of (step_rows l) (ts p)
       | None => -1
       end
     else -1)
  else -1.

Definition add_iter (l : list ev) : list ev := map (fun e => set_iter e (iter_of l e)) l.

Definition parse_rank (f : list raw) : list ev := add_iter (link (parse_file f)).

(* ---------- align: one constant for all ranks ---------- *)
Definition all_ts (ranks : list (list ev)) : list Z := map ts (List.concat ranks).
Definition global_min (ranks : list (list ev)) : Z :=
  match all_ts ranks with [] => 0 | t :: r => minZ t (t :: r) end.
Definition shift (c : Z) (e : ev) : ev := set_ts e (ts e - c).
Definition align (ranks : list (list ev)) : list (list ev) :=
  map (map (shift (global_min ranks))) ranks.

(* ---------- trim: _filter_irrelevant_gpu_kernels, per rank ---------- *)
Definition is_step_row (e : ev) : bool := is_host e && contains "ProfilerStep" (name e).
Definition host_steps (l : list ev) : list ev := filter is_step_row l.
Definition keep_host (incl : bool) (l : list ev) (e : ev) : bool :=
  is_host e &&
  (if incl then ts e <=? maxZ 0 (map eend (host_steps l)) else ts e <? maxZ 0 (map ts (host_steps l))).
Definition kept_host (incl : bool) (l : list ev) : list ev := filter (keep_host incl l) l.
(* gpu_kernels.merge(cpu_kernels["correlation"].drop_duplicates(), on="correlation", how="inner"): one row per device row whose
   correlation id is carried by some kept host row, however many carry it *)
Definition kept_dev (incl : bool) (l : list ev) : list ev :=
  filter (fun g => existsb (fun c => corr c =? corr g) (kept_host incl l)) (filter is_dev l).
Definition trim (incl : bool) (l : list ev) : list ev :=
  if (Z.of_nat (List.length (host_steps l)) <? 2) then l else kept_dev incl l ++ kept_host incl l.

Definition load (incl : bool) (files : list (list raw)) : list (list ev) :=
  map (trim incl) (align (map parse_rank files)).

(* ---------- output encoding for the correspondence run ---------- *)
Definition encode_row (tab : list string) (e : ev) : list Z :=
  [idx e; ts e; dur e; pid e; tid e; stream e; corr e; icorr e; iter e; index_of (name e) tab; index_of (cat e) tab].
Definition encode_rank (tab : list string) (l : list ev) : list (list Z) := sort_rows (map (encode_row tab) l).
Definition encode_parse (tab : list string) (files : list (list raw)) : list (list (list Z)) :=
  map (fun f => encode_rank tab (parse_rank f)) files.
Definition encode_align (tab : list string) (files : list (list raw)) : list (list (list Z)) :=
  map (encode_rank tab) (align (map parse_rank files)).
Definition encode_load (tab : list string) (incl : bool) (files : list (list raw)) : Z * list (list (list Z)) :=
  (global_min (map parse_rank files), map (encode_rank tab) (load incl files)).

(* ---------- fractional timestamps: round_down_time_stamps ----------
   ts' = ceil ts; end' = floor (ts (+) dur) where (+) is the double addition, supplied by the caller
   as the exact rational of the double sum; dur' = end' - ts'. *)
Definition round_ts (t : Q) : Z := Qceiling t.
Definition round_end (e : Q) : Z := Qfloor e.
Definition round_event (t e : Q) : Z * Z := (round_ts t, round_end e - round_ts t).
Definition encode_round (l : list (Q * Q)) : list (list Z) :=
  map (fun p => let (t, d) := round_event (fst p) (snd p) in [t; d]) l.
